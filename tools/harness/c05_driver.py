"""C05 harness (child script): runs Collocator.collocate_filesets / Collocations.search of the tree
under test end to end on harness-built filesets and records what the property makes observable.

usage: python c05_driver.py CASES.json OUT.json        (must be a script: multiprocessing)

A case fixes two filesets (files = name-derived coverage in whole seconds + the points stored in the
file: time in microseconds, lat, lon, a unique point id), max_interval (whole seconds), max_distance
(km), an optional period, the number of processes, the bundle mode, the output kind (memory / a
Collocations fileset), at most one unreadable file, skip_file_errors, seeded reader delays and -- for output to
memory -- an optional `consumer_sleep`: the caller spends that many seconds on every yielded dataset before it asks
for the next one (a slow consumer: the workers go on, fill the bounded result queue and exit meanwhile), and an
optional `poll_sleep`: the parent is held up that many seconds every time `results.empty()` has answered True (a
slow poll: a worker hands over its last results and ends between the parent's last look into the queue and the
snapshot that finds nobody alive).  Both only perturb the schedule, like the reader delays.

Observed per case:
  * sets:  one entry per emitted collocation set (a yielded dataset, or a file of the output fileset read
           back in 'compact' mode): the collocated (primary id, secondary id) pairs, the first/last primary
           time of the set, the start_time/end_time attributes, for files the name-derived times;
  * yielded_names: file names yielded by the generator (output=fileset), to see name collisions;
  * trace: the put/get/empty/is_alive events of the result queue in one total order (O_APPEND log written by
           logging subclasses of multiprocessing's Queue and Process that replace the names in
           typhon.collocations.collocator from outside, before the fork);
  * error: an exception of the call mapped to its type name and message.
Nothing here compares or judges; that is done by tools/props/c05.py.
"""
import datetime as dt
import json
import multiprocessing
import multiprocessing.queues
import os
import pickle
import shutil
import sys
import tempfile
import time
import warnings

T0 = dt.datetime(2018, 3, 1)
IN_TEMPLATE = ("{year}{month}{day}T{hour}{minute}{second}-"
               "{end_year}{end_month}{end_day}T{end_hour}{end_minute}{end_second}.pkl")
OUT_TEMPLATE = ("{year}{month}{day}T{hour}{minute}{second}-"
                "{end_year}{end_month}{end_day}T{end_hour}{end_minute}{end_second}.pkl")

# state inherited by the forked workers
BAD = set()          # paths that cannot be read
DELAYS = {}          # path -> seconds slept in the reader
POLL_SLEEP = [0.0]   # seconds the parent is held up after results.empty() answered True
LOG_FD = None


class Unreadable(IOError):
    pass


def reader(file_info, **kwargs):
    path = os.fspath(file_info)
    d = DELAYS.get(os.path.basename(os.path.dirname(path)) + "/" + os.path.basename(path), 0)
    if d:
        time.sleep(d)
    if path in BAD:
        raise Unreadable("injected read error: " + os.path.basename(path))
    with open(path, "rb") as f:
        return pickle.load(f)


def writer(data, file_info, **kwargs):
    path = os.fspath(file_info)
    os.makedirs(os.path.dirname(path), exist_ok=True)
    with open(path, "wb") as f:
        pickle.dump(data, f)


def log(line):
    if LOG_FD is not None:
        os.write(LOG_FD, (line + "\n").encode())


# The parent polls in a busy loop ("snapshot of the living workers, queue empty?").  Its events are buffered
# per cycle and written when the cycle ends (one write); a cycle without a get that repeats the previous
# cycle exactly is dropped (stuttering: it does not change the state of the model).
CYCLE = []
LAST_CYCLE = [None]


def plog(line):
    if LOG_FD is None:
        return
    CYCLE.append(line)
    if line == "E 1":
        idle = not any(l.startswith("G") for l in CYCLE)
        if not (idle and CYCLE == LAST_CYCLE[0]):
            os.write(LOG_FD, ("\n".join(CYCLE) + "\n").encode())
        LAST_CYCLE[0] = list(CYCLE)
        del CYCLE[:]


def pflush():
    if LOG_FD is not None and CYCLE:
        os.write(LOG_FD, ("\n".join(CYCLE) + "\n").encode())
    del CYCLE[:]
    LAST_CYCLE[0] = None


def kind_of(item):
    try:
        res = item[2]
    except Exception:  # noqa
        return "?"
    if res is None:
        return "N"
    if isinstance(res, type) and res.__name__ == "ProcessCrashed":
        return "C"
    return "R"


QUEUES = []


class LoggingQueue(multiprocessing.queues.Queue):
    """multiprocessing.Queue whose operations are written to the shared log. Only the first queue
    created by collocate_filesets (the result queue) is logged."""

    def __init__(self, maxsize=0):
        super().__init__(maxsize, ctx=multiprocessing.get_context())
        self._verif_tag = len(QUEUES)
        QUEUES.append(maxsize)

    def __getstate__(self):
        return super().__getstate__() + (self._verif_tag,)

    def __setstate__(self, state):
        super().__setstate__(state[:-1])
        self._verif_tag = state[-1]

    def put(self, obj, *a, **k):
        if self._verif_tag == 0:
            log(f"P {obj[0]} {kind_of(obj)}")
        return super().put(obj, *a, **k)

    def get(self, *a, **k):
        obj = super().get(*a, **k)
        if self._verif_tag == 0:
            plog(f"G {obj[0]} {kind_of(obj)}")
        return obj

    def empty(self):
        r = super().empty()
        if self._verif_tag == 0:
            plog(f"E {int(bool(r))}")
            if r and POLL_SLEEP[0]:
                time.sleep(POLL_SLEEP[0])        # ... and only now the parent goes on to its snapshot
        return r


class LoggingProcess(multiprocessing.Process):
    def __init__(self, *a, **k):
        super().__init__(*a, **k)
        try:
            self._verif_name = k.get("args", a[2] if len(a) > 2 else ())[3]
        except Exception:  # noqa
            self._verif_name = "?"

    def is_alive(self):
        r = super().is_alive()
        plog(f"A {self._verif_name} {int(bool(r))}")
        return r


def us(x):
    return T0 + dt.timedelta(microseconds=int(x))


def secs(x):
    return T0 + dt.timedelta(seconds=int(x))


def to_us(t):
    """datetime / numpy datetime64 / pandas timestamp / string -> integer microseconds since T0"""
    import numpy as np
    import pandas as pd
    ts = pd.Timestamp(t)
    if ts.tzinfo is not None:
        ts = ts.tz_localize(None)
    d = ts.to_datetime64().astype("M8[us]") - np.datetime64(T0, "us")
    return int(d.astype(int))


def build_fileset(root, name, files):
    import numpy as np
    import xarray as xr
    from typhon.files import FileSet, FileHandler
    d = os.path.join(root, name)
    os.makedirs(d)
    paths = []
    for f in files:
        s, e = secs(f["c0"]), secs(f["c1"])
        path = os.path.join(d, f"{s:%Y%m%dT%H%M%S}-{e:%Y%m%dT%H%M%S}.pkl")
        pts = f["pts"]
        t = np.array([np.datetime64(T0, "us") + np.timedelta64(int(p[0]), "us") for p in pts], dtype="M8[us]")
        ds = xr.Dataset({
            "time": ("obs", t.astype("M8[ns]")),
            "lat": ("obs", np.array([p[1] for p in pts], dtype=float)),
            "lon": ("obs", np.array([p[2] for p in pts], dtype=float)),
            "pid": ("obs", np.array([p[3] for p in pts], dtype=np.int64)),
        }, coords={"obs": ("obs", np.arange(len(pts)) + 1)})   # unique labels on the main dimension (see report:
        # without an index coordinate Collocator._prepare_data selects the wrong points -- C04's business)
        with open(path, "wb") as fh:
            pickle.dump(ds, fh)
        paths.append(path)
    fs = FileSet(os.path.join(d, IN_TEMPLATE), name=name, handler=FileHandler(reader=reader, writer=writer))
    return fs, paths


def describe(ds):
    """pairs and time span of one compact collocation dataset"""
    import numpy as np
    pairs = np.asarray(ds["Collocations/pairs"].values)
    ida = np.asarray(ds["A/pid"].values)
    idb = np.asarray(ds["B/pid"].values)
    ta = np.asarray(ds["A/time"].values)
    out = {
        "pairs": sorted([int(ida[int(i)]), int(idb[int(j)])] for i, j in zip(pairs[0], pairs[1])),
        "n_a": int(ida.size), "n_b": int(idb.size),
        "a_ids": sorted(int(x) for x in ida), "b_ids": sorted(int(x) for x in idb),
        "tmin": to_us(ta.min()), "tmax": to_us(ta.max()),
        "attr_start": to_us(ds.attrs["start_time"]) if "start_time" in ds.attrs else None,
        "attr_end": to_us(ds.attrs["end_time"]) if "end_time" in ds.attrs else None,
    }
    return out


def run_case(case):
    global LOG_FD
    import numpy as np
    np.random.seed(int(case.get("np_seed", 0)))
    import typhon.collocations.collocator as cmod
    from typhon.collocations import Collocations, Collocator
    from typhon.files import FileHandler
    cmod.Queue = LoggingQueue
    cmod.Process = LoggingProcess
    del QUEUES[:]
    root = tempfile.mkdtemp(prefix="verif_c05_")
    obs = {"id": case["id"], "sets": [], "yielded_names": [], "trace": [], "error": None, "queue_sizes": []}
    try:
        fa, pa = build_fileset(root, "A", case["A"])
        fb, pb = build_fileset(root, "B", case["B"])
        BAD.clear()
        DELAYS.clear()
        POLL_SLEEP[0] = float(case.get("poll_sleep") or 0)
        if case.get("bad"):
            which, k = case["bad"]
            BAD.add((pa if which == "A" else pb)[k])
        for key, d in (case.get("delays") or {}).items():
            which, k = key.split(":")
            p = (pa if which == "A" else pb)[int(k)]
            DELAYS[which + "/" + os.path.basename(p)] = d
        logpath = os.path.join(root, "queue.log")
        LOG_FD = os.open(logpath, os.O_WRONLY | os.O_APPEND | os.O_CREAT, 0o600)
        kwargs = dict(max_interval=case["mi"], max_distance=case["md"], processes=case["processes"],
                      bundle=case["bundle"], skip_file_errors=bool(case.get("skip")))
        if case.get("start") is not None:
            kwargs["start"] = secs(case["start"])
        if case.get("end") is not None:
            kwargs["end"] = secs(case["end"])
        out = None
        try:
            if case["output"] == "memory":
                pause = float(case.get("consumer_sleep") or 0)
                for item in Collocator().collocate_filesets([fa, fb], **kwargs):
                    if isinstance(item, type):
                        obs["sets"].append({"crashed": item.__name__})
                        continue
                    data, attrs = item
                    obs["sets"].append(describe(data))
                    if pause:
                        time.sleep(pause)        # the generator is suspended at its `yield` meanwhile
            else:
                out = Collocations(path=os.path.join(root, "out", OUT_TEMPLATE), name="out", read_mode="compact",
                                   handler=FileHandler(reader=reader, writer=writer))
                if case["output"] == "search":
                    out.search([fa, fb], **kwargs)
                else:
                    for item in Collocator().collocate_filesets([fa, fb], output=out, **kwargs):
                        if isinstance(item, type):
                            obs["yielded_names"].append("CRASHED:" + item.__name__)
                        else:
                            obs["yielded_names"].append(os.path.basename(str(item)))
        except Exception as e:  # noqa
            obs["error"] = f"{type(e).__name__}: {str(e)[:200]}"
        finally:
            POLL_SLEEP[0] = 0.0
            pflush()
            os.close(LOG_FD)
            LOG_FD = None
        obs["queue_sizes"] = list(QUEUES)
        if out is not None:
            outdir = os.path.join(root, "out")
            names = sorted(os.listdir(outdir)) if os.path.isdir(outdir) else []
            obs["files_on_disk"] = names
            if names:
                try:
                    for info in out.find(no_files_error=False):
                        d = describe(out.read(info))
                        d["name"] = os.path.basename(info.path)
                        d["name_start"] = to_us(info.times[0])
                        d["name_end"] = to_us(info.times[1])
                        obs["sets"].append(d)
                except Exception as e:  # noqa
                    obs["error"] = (obs["error"] or "") + f" READBACK {type(e).__name__}: {str(e)[:200]}"
        with open(logpath) as f:
            obs["trace"] = [l.split() for l in f.read().splitlines() if l.strip()]
    finally:
        shutil.rmtree(root, ignore_errors=True)
    return obs


def main():
    warnings.filterwarnings("ignore")
    import logging
    logging.disable(logging.CRITICAL)
    cases = json.load(open(sys.argv[1]))
    res = []
    for c in cases:
        t = time.time()
        try:
            o = run_case(c)
        except Exception as e:  # noqa
            import traceback
            o = {"id": c["id"], "sets": [], "yielded_names": [], "trace": [],
                 "error": f"HARNESS {type(e).__name__}: {e} {traceback.format_exc()[-600:]}"}
        o["wall"] = round(time.time() - t, 2)
        res.append(o)
    with open(sys.argv[2], "w") as f:
        json.dump(res, f)


if __name__ == "__main__":
    main()
